(* Word lists (least significant word first): raw value, checked and unchecked access, bit
   windows, re-chunking between word widths. *)
From BVA Require Import Base.Prelude Base.Result Base.Words.
From Coq Require Import ZifyBool ZifyN ZifyNat.

Definition lenw (d : list N) : N := N.of_nat (length d).

(* unchecked read (0 beyond the end): used where the Rust index is statically in range or
   where the Rust itself says `.get(i).unwrap_or(&0)` *)
Definition getw (d : list N) (i : N) : N := nth (N.to_nat i) d 0.

Fixpoint setw_nat (d : list N) (i : nat) (x : N) : list N :=
  match d, i with
  | [], _ => []
  | _ :: r, O => x :: r
  | y :: r, S i' => y :: setw_nat r i' x
  end.
Definition setw (d : list N) (i x : N) : list N := setw_nat d (N.to_nat i) x.

(* checked access: `data[i]` panics when i is out of range *)
Definition geto (d : list N) (i : N) : outcome N :=
  match nth_error d (N.to_nat i) with Some x => Ok x | None => Panic end.
Definition seto (d : list N) (i x : N) : outcome (list N) :=
  if i <? lenw d then Ok (setw d i x) else Panic.

(* the whole storage read as one number *)
Fixpoint raw (w : N) (d : list N) : N :=
  match d with
  | [] => 0
  | x :: r => x + N.shiftl (raw w r) w
  end.

Definition words_ok (w : N) (d : list N) : Prop := Forall (fun x => x < 2 ^ w) d.
Definition words_okb (w : N) (d : list N) : bool := forallb (fun x => x <? pow2 w) d.

Definition zerosw (n : N) : list N := repeat 0 (N.to_nat n).

(* [0; 1; ...; n-1] as N, for `for i in 0..n` loops *)
Definition nrange (n : N) : list N := map N.of_nat (seq 0 (N.to_nat n)).
(* map with index: `for i in 0..N { data[i] = f i data[i] }` *)
Definition mapi (f : N -> N -> N) (d : list N) : list N :=
  map (fun p => f (N.of_nat (fst p)) (snd p)) (combine (seq 0 (length d)) d).

(* ------------------------------------------------------------------ basic lemmas *)

Lemma raw_cons w x r : raw w (x :: r) = x + 2 ^ w * raw w r.
Proof. cbn [raw]. rewrite N.shiftl_mul_pow2. lia. Qed.

Lemma raw_nil w : raw w [] = 0.
Proof. reflexivity. Qed.

Lemma lenw_cons x r : lenw (x :: r) = lenw r + 1.
Proof. unfold lenw. cbn [length]. lia. Qed.

Lemma lenw_nil : lenw [] = 0.
Proof. reflexivity. Qed.

Lemma raw_lt w d : words_ok w d -> raw w d < 2 ^ (w * lenw d).
Proof.
  induction 1 as [|x r Hx Hr IH].
  - cbn. lia.
  - rewrite raw_cons, lenw_cons.
    replace (w * (lenw r + 1)) with (w + w * lenw r) by lia.
    apply concat_lt; assumption.
Qed.

Lemma getw_nil i : getw [] i = 0.
Proof. unfold getw. destruct (N.to_nat i); reflexivity. Qed.

Lemma getw_cons_0 x r : getw (x :: r) 0 = x.
Proof. reflexivity. Qed.

Lemma getw_cons_S x r i : 0 < i -> getw (x :: r) i = getw r (i - 1).
Proof.
  intros H. unfold getw. replace (N.to_nat i) with (S (N.to_nat (i - 1))) by lia. reflexivity.
Qed.

Lemma getw_ok w d i : words_ok w d -> getw d i < 2 ^ w.
Proof. intros H. unfold getw. apply Forall_nth_default; [assumption|apply pow2_pos]. Qed.

Lemma getw_high d i : lenw d <= i -> getw d i = 0.
Proof. intros H. unfold getw, lenw in *. apply nth_overflow. lia. Qed.

Lemma geto_ok d i : i < lenw d -> geto d i = Ok (getw d i).
Proof.
  intros H. unfold geto, getw, lenw in *.
  destruct (nth_error d (N.to_nat i)) eqn:E.
  - erewrite nth_error_nth by eassumption. reflexivity.
  - apply nth_error_None in E. lia.
Qed.

Lemma geto_inv d i x : geto d i = Ok x -> i < lenw d /\ x = getw d i.
Proof.
  unfold geto. destruct (nth_error d (N.to_nat i)) eqn:E; intros H; inv_ok.
  split.
  - apply nth_error_Some_lt in E. unfold lenw. lia.
  - unfold getw. erewrite nth_error_nth by eassumption. reflexivity.
Qed.

Lemma setw_nat_length d i x : length (setw_nat d i x) = length d.
Proof. revert i. induction d as [|y r IH]; intros [|i]; cbn; auto. Qed.

Lemma lenw_setw d i x : lenw (setw d i x) = lenw d.
Proof. unfold lenw, setw. rewrite setw_nat_length. reflexivity. Qed.

Lemma setw_nat_nth d i j x :
  nth j (setw_nat d i x) 0 = if Nat.eqb i j && Nat.ltb i (length d) then x else nth j d 0.
Proof.
  revert i j. induction d as [|y r IH]; intros i j.
  - cbn. destruct j, i; cbn; try reflexivity. rewrite andb_false_r. reflexivity.
  - destruct i, j; cbn [setw_nat nth length]; try reflexivity.
    rewrite IH. reflexivity.
Qed.

Lemma getw_setw d i j x :
  getw (setw d i x) j = if (i =? j) && (i <? lenw d) then x else getw d j.
Proof.
  unfold getw, setw, lenw. rewrite setw_nat_nth.
  destruct (N.eqb_spec i j); destruct (N.ltb_spec i (N.of_nat (length d)));
    destruct (Nat.eqb_spec (N.to_nat i) (N.to_nat j)); destruct (Nat.ltb_spec (N.to_nat i) (length d));
    cbn; try reflexivity; lia.
Qed.

Lemma words_ok_setw w d i x : words_ok w d -> x < 2 ^ w -> words_ok w (setw d i x).
Proof.
  intros Hd Hx. unfold setw, words_ok in *. generalize (N.to_nat i). clear i.
  induction Hd as [|y r Hy Hr IH]; intros [|i]; cbn [setw_nat]; try constructor; auto.
Qed.

Lemma seto_ok d i x : i < lenw d -> seto d i x = Ok (setw d i x).
Proof. intros H. unfold seto. apply N.ltb_lt in H. rewrite H. reflexivity. Qed.

Lemma seto_inv d i x d' : seto d i x = Ok d' -> i < lenw d /\ d' = setw d i x.
Proof. unfold seto. destruct (N.ltb_spec i (lenw d)) as [Hlt|Hge]; intros E; inv_ok. auto. Qed.

Lemma words_okb_spec w d : words_okb w d = true <-> words_ok w d.
Proof.
  unfold words_okb, words_ok. rewrite forallb_forall, Forall_forall.
  split; intros H x Hx; specialize (H x Hx); rewrite pow2_eq in *; lia.
Qed.

Lemma lenw_zerosw n : lenw (zerosw n) = n.
Proof. unfold lenw, zerosw. rewrite repeat_length. lia. Qed.

Lemma words_ok_zerosw w n : words_ok w (zerosw n).
Proof. apply Forall_repeat, pow2_pos. Qed.

Lemma raw_zerosw w n : raw w (zerosw n) = 0.
Proof.
  unfold zerosw. induction (N.to_nat n) as [|k IH]; [reflexivity|].
  cbn [repeat]. rewrite raw_cons, IH. lia.
Qed.

Lemma getw_zerosw n i : getw (zerosw n) i = 0.
Proof.
  unfold getw, zerosw. generalize (N.to_nat i) as k.
  induction (N.to_nat n) as [|m IH]; intros [|k]; cbn; auto.
Qed.

(* ------------------------------------------------------------------ raw vs. bits *)

Section W.
Variable w : N.
Hypothesis Hw : 0 < w.

Lemma raw_testbit d i :
  words_ok w d -> N.testbit (raw w d) i = N.testbit (getw d (i / w)) (i mod w).
Proof.
  intros Hd. revert i. induction Hd as [|x r Hx Hr IH]; intros i.
  - rewrite getw_nil. cbn. rewrite !N.bits_0. reflexivity.
  - rewrite raw_cons, concat_testbit by assumption.
    destruct (N.ltb_spec i w) as [Hi|Hi].
    + rewrite N.div_small, N.mod_small by assumption. reflexivity.
    + rewrite IH.
      destruct (divmod_unique i w ((i - w) / w + 1) ((i - w) mod w) Hw) as [Hq Hr'].
      * pose proof (div_mod_eq (i - w) w). lia.
      * apply mod_lt'. assumption.
      * rewrite Hq, Hr'. rewrite getw_cons_S by lia. f_equal. f_equal. lia.
Qed.

Lemma raw_inj_bits d1 d2 :
  words_ok w d1 -> words_ok w d2 -> lenw d1 = lenw d2 ->
  (forall i, i < lenw d1 -> getw d1 i = getw d2 i) -> d1 = d2.
Proof.
  intros H1. revert d2. induction H1 as [|x r Hx Hr IH]; intros d2 H2 Hl Hg.
  - destruct d2; [reflexivity|]. rewrite lenw_nil, lenw_cons in Hl. lia.
  - destruct H2 as [|y r2 Hy Hr2]; [rewrite lenw_nil, lenw_cons in Hl; lia|].
    rewrite !lenw_cons in Hl.
    f_equal.
    + specialize (Hg 0). rewrite !getw_cons_0 in Hg. apply Hg. rewrite lenw_cons. lia.
    + apply IH; [assumption|lia|]. intros i Hi.
      specialize (Hg (i + 1)). rewrite !getw_cons_S in Hg by lia.
      replace (i + 1 - 1) with i in Hg by lia. apply Hg. rewrite lenw_cons. lia.
Qed.

(* a read of l bits at bit position pos inside one word: (data[pos/w] >> (pos%w)) & mask(l) *)
Definition read_bits (d : list N) (pos l : N) : N :=
  N.land (shrw (getw d (pos / w)) (pos mod w)) (maskw w l).

Lemma read_bits_testbit d pos l i :
  words_ok w d -> pos mod w + l <= w ->
  N.testbit (read_bits d pos l) i = (i <? l) && N.testbit (raw w d) (pos + i).
Proof.
  intros Hd Hl. unfold read_bits.
  rewrite N.land_spec, shrw_testbit, maskw_testbit.
  destruct (N.ltb_spec i l) as [Hi|Hi]; [|rewrite andb_false_r; reflexivity].
  assert (i <? w = true) as -> by (apply N.ltb_lt; pose proof (mod_lt' pos w Hw); lia).
  rewrite andb_true_r. cbn [andb].
  rewrite raw_testbit by assumption.
  destruct (divmod_window w pos i Hw) as [-> ->]; [lia|].
  f_equal. lia.
Qed.

Lemma read_bits_lt d pos l : read_bits d pos l < 2 ^ l.
Proof.
  apply lt_pow2_of_bits. intros i Hi. unfold read_bits.
  rewrite N.land_spec, maskw_testbit.
  assert (i <? l = false) as -> by (apply N.ltb_ge; assumption).
  cbn. apply andb_false_r.
Qed.

(* read-modify-write of l bits at position pos inside one word:
     data[pos/w] &= !(mask(l) << (pos%w));  data[pos/w] |= v << (pos%w)   *)
Definition write_word (x o l v : N) : N :=
  N.lor (N.land x (notw w (shlw w (maskw w l) o))) (shlw w v o).
Definition write_bits (d : list N) (pos l v : N) : list N :=
  setw d (pos / w) (write_word (getw d (pos / w)) (pos mod w) l v).

Lemma write_word_testbit x o l v i :
  x < 2 ^ w -> o + l <= w -> v < 2 ^ l ->
  N.testbit (write_word x o l v) i =
  if (o <=? i) && (i <? o + l) then N.testbit v (i - o) else N.testbit x i.
Proof.
  intros Hx Hol Hv. unfold write_word.
  rewrite N.lor_spec, N.land_spec, notw_testbit, !shlw_testbit, maskw_testbit.
  destruct (N.ltb_spec i w) as [Hiw|Hiw].
  - destruct (N.leb_spec o i) as [Hoi|Hoi]; cbn [andb].
    + destruct (N.ltb_spec i (o + l)) as [Hil|Hil].
      * assert (i - o <? l = true) as -> by (apply N.ltb_lt; lia).
        assert (i - o <? w = true) as -> by (apply N.ltb_lt; lia).
        cbn. rewrite andb_false_r. reflexivity.
      * assert (i - o <? l = false) as -> by (apply N.ltb_ge; lia).
        cbn. rewrite andb_true_r.
        rewrite (testbit_high v l (i - o)) by (assumption || lia).
        apply orb_false_r.
    + cbn. rewrite andb_true_r. apply orb_false_r.
  - cbn [andb xorb]. rewrite (testbit_high x w i) by assumption. cbn.
    destruct ((o <=? i) && (i <? o + l)) eqn:E; [|reflexivity].
    apply andb_true_iff in E. destruct E as [E1 E2]. apply N.ltb_lt in E2. lia.
Qed.

Lemma write_word_lt x o l v : x < 2 ^ w -> write_word x o l v < 2 ^ w.
Proof.
  intros Hx. apply lt_pow2_of_bits. intros i Hi. unfold write_word.
  rewrite N.lor_spec, N.land_spec, shlw_testbit.
  rewrite (testbit_high x w i) by assumption.
  assert (i <? w = false) as -> by (apply N.ltb_ge; assumption). reflexivity.
Qed.

Lemma words_ok_write_bits d pos l v : words_ok w d -> words_ok w (write_bits d pos l v).
Proof.
  intros Hd. unfold write_bits. apply words_ok_setw; [assumption|].
  apply write_word_lt. apply getw_ok. assumption.
Qed.

Lemma lenw_write_bits d pos l v : lenw (write_bits d pos l v) = lenw d.
Proof. unfold write_bits. apply lenw_setw. Qed.

Lemma write_bits_testbit d pos l v i :
  words_ok w d -> pos / w < lenw d -> pos mod w + l <= w -> v < 2 ^ l ->
  N.testbit (raw w (write_bits d pos l v)) i =
  if (pos <=? i) && (i <? pos + l) then N.testbit v (i - pos) else N.testbit (raw w d) i.
Proof.
  intros Hd Hp Hl Hv.
  rewrite !raw_testbit by (try apply words_ok_write_bits; assumption).
  unfold write_bits. rewrite getw_setw.
  assert (pos / w <? lenw d = true) as -> by (apply N.ltb_lt; assumption).
  rewrite andb_true_r.
  pose proof (div_mod_eq pos w) as Ep. pose proof (mod_lt' pos w Hw) as Hpm.
  pose proof (div_mod_eq i w) as Ei. pose proof (mod_lt' i w Hw) as Him.
  destruct (N.eqb_spec (pos / w) (i / w)) as [Heq|Hne].
  - rewrite write_word_testbit by (try apply getw_ok; assumption).
    rewrite Heq.
    assert ((pos mod w <=? i mod w) = (pos <=? i)) as ->.
    { destruct (N.leb_spec (pos mod w) (i mod w)); destruct (N.leb_spec pos i); try reflexivity; nia. }
    assert ((i mod w <? pos mod w + l) = (i <? pos + l)) as ->.
    { destruct (N.ltb_spec (i mod w) (pos mod w + l)); destruct (N.ltb_spec i (pos + l)); try reflexivity; nia. }
    destruct ((pos <=? i) && (i <? pos + l)) eqn:E; [|reflexivity].
    apply andb_true_iff in E. destruct E as [E1 E2]. apply N.leb_le in E1.
    f_equal. nia.
  - assert ((pos <=? i) && (i <? pos + l) = false) as ->; [|reflexivity].
    apply andb_false_iff.
    destruct (N.lt_ge_cases (i / w) (pos / w)).
    + left. apply N.leb_gt. nia.
    + right. apply N.ltb_ge. assert (pos / w + 1 <= i / w) by lia. nia.
Qed.

End W.
