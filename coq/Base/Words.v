(* w-bit machine words: the Integer trait of utils.rs, generic in the width w (8,16,32,64,128).
   A word is an N below 2^w.  Executable definitions wrap with land/ones and shift; the lemmas
   below switch to arithmetic once. *)
From BVA Require Import Base.Prelude.
From Coq Require Import ZifyBool ZifyN ZifyNat.

Definition pow2 (n : N) : N := N.shiftl 1 n.
Definition wrap (w x : N) : N := N.land x (N.ones w).          (* `as I` / wrapping result *)
Definition wmax (w : N) : N := N.ones w.                         (* I::MAX *)
Definition notw (w x : N) : N := N.lxor x (N.ones w).            (* !x for x < 2^w *)
Definition shlw (w x k : N) : N := wrap w (N.shiftl x k).        (* x << k, k < w *)
Definition shrw (x k : N) : N := N.shiftr x k.                   (* x >> k, k < w *)

(* Integer::mask(length) *)
Definition maskw (w l : N) : N := if l <? w then N.ones l else N.ones w.

(* Integer::cadd: *self + rhs + carry, returns (new self, carry out) *)
Definition cadd (w a b c : N) : N * N :=
  let s1 := a + b in
  let v1 := wrap w s1 in let c1 := N.shiftr s1 w in
  let s2 := v1 + c in
  let v2 := wrap w s2 in let c2 := N.shiftr s2 w in
  (v2, c1 + c2).

(* overflowing_sub *)
Definition osub (w a b : N) : N * N :=
  if a <? b then (a + pow2 w - b, 1) else (a - b, 0).
(* overflowing_add *)
Definition oadd (w a b : N) : N * N :=
  let s := a + b in (wrap w s, N.shiftr s w).

(* Integer::csub *)
Definition csub (w a b c : N) : N * N :=
  let '(v1, c1) := osub w a b in
  let '(v2, c2) := osub w v1 c in
  (v2, c1 + c2).

(* Integer::wmul for u8..u64, usize: widening multiply through the double-width type *)
Definition wmul_gen (w a b : N) : N * N :=
  let p := a * b in (wrap w p, N.shiftr p w).

(* Integer::wmul for u128: the four-partial-product body, transcribed literally *)
Definition wmul128 (a b : N) : N * N :=
  let w := 128 in
  let mask := pow2 64 - 1 in
  let p0 := wrap w (N.land a mask * N.land b mask) in
  let p1 := wrap w (N.shiftr a 64 * N.land b mask) in
  let p2 := wrap w (N.land a mask * N.shiftr b 64) in
  let p3 := wrap w (N.shiftr a 64 * N.shiftr b 64) in
  let '(p0', c) := cadd w p0 (shlw w p1 64) (shlw w p2 64) in
  (p0', p3 + N.shiftr p1 64 + N.shiftr p2 64 + c).

Definition wmul (w a b : N) : N * N :=
  if w =? 128 then wmul128 a b else wmul_gen w a b.

(* leading_zeros / leading_ones / trailing_zeros / trailing_ones of a w-bit word *)
Definition clz (w x : N) : N := w - N.size x.
Definition clo (w x : N) : N := clz w (notw w x).
Fixpoint ctz_pos (p : positive) : N :=
  match p with xO q => N.succ (ctz_pos q) | _ => 0 end.
Definition ctz (w x : N) : N := match x with 0 => w | Npos p => ctz_pos p end.
Definition cto (w x : N) : N := ctz w (notw w x).

(* `x as J` for a J of j bits *)
Definition cast (j x : N) : N := wrap j x.

(* ------------------------------------------------------------------ lemmas *)

Lemma pow2_eq n : pow2 n = 2 ^ n.
Proof. unfold pow2. rewrite N.shiftl_1_l. reflexivity. Qed.

Lemma wrap_mod w x : wrap w x = x mod 2 ^ w.
Proof. apply N.land_ones. Qed.

Lemma wrap_lt w x : wrap w x < 2 ^ w.
Proof. rewrite wrap_mod. apply N.mod_lt, pow2_ne0. Qed.

Lemma wrap_small w x : x < 2 ^ w -> wrap w x = x.
Proof. intros. rewrite wrap_mod. apply N.mod_small. assumption. Qed.

Lemma wrap_testbit w x i : N.testbit (wrap w x) i = (i <? w) && N.testbit x i.
Proof. apply land_ones_testbit. Qed.

Lemma wmax_lt w : wmax w < 2 ^ w.
Proof. apply ones_lt. Qed.

Lemma notw_testbit w x i : N.testbit (notw w x) i = xorb (N.testbit x i) (i <? w).
Proof. unfold notw. rewrite N.lxor_spec, ones_testbit. reflexivity. Qed.

Lemma notw_lt w x : x < 2 ^ w -> notw w x < 2 ^ w.
Proof.
  intros H. apply lt_pow2_of_bits. intros i Hi. rewrite notw_testbit.
  rewrite (testbit_high x w i) by assumption.
  assert (i <? w = false) as -> by (apply N.ltb_ge; assumption). reflexivity.
Qed.

Lemma notw_add w x : x < 2 ^ w -> x + notw w x = 2 ^ w - 1.
Proof.
  intros H. rewrite N.add_nocarry_lxor.
  - unfold notw. rewrite <- N.lxor_assoc, N.lxor_nilpotent, N.lxor_0_l. apply ones_eq.
  - apply N.bits_inj. intro i. rewrite N.land_spec, notw_testbit, N.bits_0.
    destruct (N.ltb_spec i w).
    + destruct (N.testbit x i); reflexivity.
    + rewrite (testbit_high x w i) by assumption. reflexivity.
Qed.

Lemma notw_eq w x : x < 2 ^ w -> notw w x = 2 ^ w - 1 - x.
Proof. intros H. pose proof (notw_add w x H). lia. Qed.

Lemma maskw_lt w l : maskw w l < 2 ^ w.
Proof.
  unfold maskw. destruct (N.ltb_spec l w).
  - eapply N.lt_le_trans; [apply ones_lt|]. apply pow2_le. lia.
  - apply ones_lt.
Qed.

Lemma maskw_testbit w l i : N.testbit (maskw w l) i = (i <? l) && (i <? w).
Proof.
  unfold maskw. destruct (N.ltb_spec l w); rewrite ones_testbit.
  - destruct (N.ltb_spec i l); destruct (N.ltb_spec i w); try reflexivity; lia.
  - destruct (N.ltb_spec i l); destruct (N.ltb_spec i w); try reflexivity; lia.
Qed.

Lemma maskw_eq w l : maskw w l = N.ones (N.min l w).
Proof.
  unfold maskw. destruct (N.ltb_spec l w).
  - rewrite N.min_l by lia. reflexivity.
  - rewrite N.min_r by lia. reflexivity.
Qed.

Lemma shlw_testbit w x k i :
  N.testbit (shlw w x k) i = (i <? w) && (k <=? i) && N.testbit x (i - k).
Proof. unfold shlw. rewrite wrap_testbit, shiftl_testbit. apply andb_assoc. Qed.

Lemma shlw_lt w x k : shlw w x k < 2 ^ w.
Proof. apply wrap_lt. Qed.

Lemma shrw_testbit x k i : N.testbit (shrw x k) i = N.testbit x (i + k).
Proof. apply shiftr_testbit. Qed.

Lemma shrw_lt w x k : x < 2 ^ w -> shrw x k < 2 ^ w.
Proof.
  intros H. unfold shrw. rewrite N.shiftr_div_pow2.
  eapply N.le_lt_trans; [|exact H]. apply N.div_le_upper_bound; [apply pow2_ne0|].
  pose proof (pow2_pos k). nia.
Qed.

Lemma mod_lt2 a B : 0 < B -> a < 2 * B -> a mod B = if B <=? a then a - B else a.
Proof.
  intros HB Ha. destruct (N.leb_spec B a).
  - symmetry. apply (N.mod_unique a B 1); lia.
  - apply N.mod_small. assumption.
Qed.

Lemma div_lt2 a B : 0 < B -> a < 2 * B -> a / B = if B <=? a then 1 else 0.
Proof.
  intros HB Ha. destruct (N.leb_spec B a).
  - symmetry. apply (N.div_unique a B 1 (a - B)); lia.
  - apply N.div_small. assumption.
Qed.

Lemma oadd_spec w a b v c :
  a < 2 ^ w -> b < 2 ^ w -> oadd w a b = (v, c) ->
  v + 2 ^ w * c = a + b /\ v < 2 ^ w /\ c <= 1.
Proof.
  intros Ha Hb E. unfold oadd in E. injection E as <- <-.
  rewrite wrap_mod, N.shiftr_div_pow2.
  pose proof (pow2_pos w) as HB.
  rewrite mod_lt2, div_lt2 by lia.
  destruct (N.leb_spec (2 ^ w) (a + b)); lia.
Qed.

Lemma cadd_spec w a b c v c' :
  a < 2 ^ w -> b < 2 ^ w -> c < 2 ^ w -> cadd w a b c = (v, c') ->
  v + 2 ^ w * c' = a + b + c /\ v < 2 ^ w.
Proof.
  intros Ha Hb Hc E. unfold cadd in E. cbv zeta in E. injection E as <- <-.
  rewrite !wrap_mod, !N.shiftr_div_pow2.
  pose proof (pow2_pos w) as HB.
  rewrite (mod_lt2 (a + b)), (div_lt2 (a + b)) by lia.
  destruct (N.leb_spec (2 ^ w) (a + b)).
  - rewrite mod_lt2, div_lt2 by lia.
    destruct (N.leb_spec (2 ^ w) (a + b - 2 ^ w + c)); lia.
  - rewrite mod_lt2, div_lt2 by lia.
    destruct (N.leb_spec (2 ^ w) (a + b + c)); lia.
Qed.

(* the common case: incoming carry at most 1, outgoing carry at most 1 *)
Lemma cadd_spec1 w a b c v c' :
  a < 2 ^ w -> b < 2 ^ w -> c <= 1 -> cadd w a b c = (v, c') ->
  v + 2 ^ w * c' = a + b + c /\ v < 2 ^ w /\ c' <= 1.
Proof.
  intros Ha Hb Hc E.
  pose proof (pow2_pos w) as HB.
  assert (c < 2 ^ w \/ 2 ^ w = 1) as [Hc'|Hw1] by lia.
  - destruct (cadd_spec w a b c v c' Ha Hb Hc' E) as (H1 & H2).
    split; [assumption|]. split; [assumption|]. nia.
  - assert (a = 0) by lia. assert (b = 0) by lia. subst a b.
    unfold cadd in E. cbv zeta in E. injection E as <- <-.
    rewrite !wrap_mod, !N.shiftr_div_pow2, Hw1. rewrite !N.mod_1_r, !N.div_1_r. lia.
Qed.

Lemma osub_spec w a b v c :
  a < 2 ^ w -> b < 2 ^ w -> osub w a b = (v, c) ->
  v + b = a + 2 ^ w * c /\ v < 2 ^ w /\ c <= 1.
Proof.
  intros Ha Hb E. unfold osub in E. rewrite pow2_eq in E.
  destruct (N.ltb_spec a b); injection E as <- <-; lia.
Qed.

Lemma csub_spec1 w a b c v c' :
  a < 2 ^ w -> b < 2 ^ w -> c <= 1 -> c < 2 ^ w -> csub w a b c = (v, c') ->
  v + b + c = a + 2 ^ w * c' /\ v < 2 ^ w /\ c' <= 1.
Proof.
  intros Ha Hb Hc Hc' E. unfold csub in E.
  destruct (osub w a b) as [v1 c1] eqn:E1.
  destruct (osub w v1 c) as [v2 c2] eqn:E2. injection E as <- <-.
  destruct (osub_spec _ _ _ _ _ Ha Hb E1) as (H1 & H2 & H3).
  destruct (osub_spec _ _ _ _ _ H2 Hc' E2) as (H4 & H5 & H6).
  split; [lia|]. split; [assumption|].
  (* both borrows cannot happen: if c1 = 1 then v1 = a + 2^w - b >= 1 >= c *)
  destruct (N.eq_dec c1 1) as [->|]; destruct (N.eq_dec c2 1) as [->|]; try lia.
Qed.

Lemma wmul_gen_spec w a b lo hi :
  a < 2 ^ w -> b < 2 ^ w -> wmul_gen w a b = (lo, hi) ->
  lo + 2 ^ w * hi = a * b /\ lo < 2 ^ w /\ hi < 2 ^ w.
Proof.
  intros Ha Hb E. unfold wmul_gen in E. cbv zeta in E. injection E as <- <-.
  rewrite wrap_mod, N.shiftr_div_pow2.
  pose proof (pow2_pos w) as HB.
  split; [rewrite N.add_comm; symmetry; apply N.div_mod'|].
  split; [apply N.mod_lt; lia|].
  apply N.div_lt_upper_bound; [lia|]. nia.
Qed.
