(* Width-independent facts about N, bits and lists.  Nothing here mentions the model. *)
From Coq Require Export NArith List Lia Bool ZArith.
From Coq Require Import ZifyBool ZifyN ZifyNat.
Export ListNotations.
Open Scope N_scope.

Global Arguments N.add : simpl never.
Global Arguments N.sub : simpl never.
Global Arguments N.mul : simpl never.
Global Arguments N.pow : simpl never.
Global Arguments N.div : simpl never.
Global Arguments N.modulo : simpl never.
Global Arguments N.shiftl : simpl never.
Global Arguments N.shiftr : simpl never.
Global Arguments N.land : simpl never.
Global Arguments N.lor : simpl never.
Global Arguments N.lxor : simpl never.
Global Arguments N.ldiff : simpl never.
Global Arguments N.ones : simpl never.
Global Arguments N.testbit : simpl never.
Global Arguments N.ltb : simpl never.
Global Arguments N.leb : simpl never.
Global Arguments N.eqb : simpl never.
Global Arguments N.min : simpl never.
Global Arguments N.max : simpl never.
Global Arguments N.of_nat : simpl never.
Global Arguments N.to_nat : simpl never.
Global Arguments N.size : simpl never.
Global Arguments N.log2 : simpl never.

(* ---------------------------------------------------------------- powers of two *)

Lemma pow2_pos n : 0 < 2 ^ n.
Proof. apply N.neq_0_lt_0, N.pow_nonzero. discriminate. Qed.

Lemma pow2_ne0 n : 2 ^ n <> 0.
Proof. apply N.pow_nonzero. discriminate. Qed.

Lemma pow2_add a b : 2 ^ (a + b) = 2 ^ a * 2 ^ b.
Proof. apply N.pow_add_r. Qed.

Lemma pow2_le a b : a <= b -> 2 ^ a <= 2 ^ b.
Proof. intros. apply N.pow_le_mono_r; lia. Qed.

Lemma pow2_lt a b : a < b -> 2 ^ a < 2 ^ b.
Proof. intros. apply N.pow_lt_mono_r; lia. Qed.

Lemma pow2_split a b : a <= b -> 2 ^ b = 2 ^ a * 2 ^ (b - a).
Proof. intros. rewrite <- N.pow_add_r. f_equal. lia. Qed.

Lemma ones_eq n : N.ones n = 2 ^ n - 1.
Proof. rewrite N.ones_equiv. lia. Qed.

Lemma ones_lt n : N.ones n < 2 ^ n.
Proof. rewrite ones_eq. pose proof (pow2_pos n). lia. Qed.

(* ---------------------------------------------------------------- testbit *)

Lemma ones_testbit n i : N.testbit (N.ones n) i = (i <? n).
Proof.
  destruct (N.ltb_spec i n).
  - apply N.ones_spec_low; lia.
  - apply N.ones_spec_high; lia.
Qed.

Lemma testbit_high a n i : a < 2 ^ n -> n <= i -> N.testbit a i = false.
Proof.
  intros Ha Hi. destruct (N.eq_dec a 0) as [->|Hz]; [apply N.bits_0|].
  apply N.bits_above_log2. apply N.log2_lt_pow2; [lia|].
  eapply N.lt_le_trans; [exact Ha|]. apply pow2_le; lia.
Qed.

Lemma lt_pow2_of_bits a n : (forall i, n <= i -> N.testbit a i = false) -> a < 2 ^ n.
Proof.
  intros H. destruct (N.eq_dec a 0) as [->|Hz]; [apply pow2_pos|].
  apply N.log2_lt_pow2; [lia|].
  destruct (N.lt_ge_cases (N.log2 a) n) as [|Hge]; [assumption|].
  specialize (H _ Hge). rewrite N.bit_log2 in H by assumption. discriminate.
Qed.

Lemma mod_pow2_testbit a n i : N.testbit (a mod 2 ^ n) i = (i <? n) && N.testbit a i.
Proof.
  destruct (N.ltb_spec i n).
  - rewrite N.mod_pow2_bits_low by assumption. reflexivity.
  - rewrite N.mod_pow2_bits_high by assumption. reflexivity.
Qed.

Lemma land_ones_testbit a n i : N.testbit (N.land a (N.ones n)) i = (i <? n) && N.testbit a i.
Proof. rewrite N.land_spec, ones_testbit. apply andb_comm. Qed.

Lemma shiftl_testbit a n i : N.testbit (N.shiftl a n) i = (n <=? i) && N.testbit a (i - n).
Proof.
  destruct (N.leb_spec n i).
  - rewrite N.shiftl_spec_high' by assumption. reflexivity.
  - rewrite N.shiftl_spec_low by assumption. reflexivity.
Qed.

Lemma shiftr_testbit a n i : N.testbit (N.shiftr a n) i = N.testbit a (i + n).
Proof. apply N.shiftr_spec'. Qed.

Lemma div_pow2_testbit a n i : N.testbit (a / 2 ^ n) i = N.testbit a (i + n).
Proof. rewrite <- N.shiftr_div_pow2. apply N.shiftr_spec'. Qed.

Lemma mul_pow2_testbit a n i : N.testbit (a * 2 ^ n) i = (n <=? i) && N.testbit a (i - n).
Proof. rewrite <- N.shiftl_mul_pow2. apply shiftl_testbit. Qed.

(* a + 2^n * b when a < 2^n is a concatenation *)
Lemma concat_testbit a b n i :
  a < 2 ^ n -> N.testbit (a + 2 ^ n * b) i = if i <? n then N.testbit a i else N.testbit b (i - n).
Proof.
  intros Ha. destruct (N.ltb_spec i n) as [Hi|Hi].
  - replace a with ((a + 2 ^ n * b) mod 2 ^ n) at 2.
    + rewrite mod_pow2_testbit. apply N.ltb_lt in Hi. rewrite Hi. reflexivity.
    + rewrite N.mul_comm, N.mod_add by apply pow2_ne0. apply N.mod_small. assumption.
  - replace b with ((a + 2 ^ n * b) / 2 ^ n) at 2.
    + rewrite div_pow2_testbit. f_equal. lia.
    + rewrite N.mul_comm, N.div_add by apply pow2_ne0. rewrite N.div_small by assumption. lia.
Qed.

Lemma concat_lt a b n m : a < 2 ^ n -> b < 2 ^ m -> a + 2 ^ n * b < 2 ^ (n + m).
Proof.
  intros Ha Hb. rewrite pow2_add.
  assert (2 ^ n * (b + 1) <= 2 ^ n * 2 ^ m) as H by (apply N.mul_le_mono_l; lia).
  rewrite N.mul_add_distr_l, N.mul_1_r in H. lia.
Qed.

Lemma lor_disjoint_add a b n : a < 2 ^ n -> N.lor a (2 ^ n * b) = a + 2 ^ n * b.
Proof.
  intros Ha. apply N.bits_inj. intro i.
  rewrite N.lor_spec, concat_testbit by assumption.
  rewrite N.mul_comm, mul_pow2_testbit.
  destruct (N.ltb_spec i n) as [Hi|Hi].
  - assert (n <=? i = false) as -> by (apply N.leb_gt; assumption). cbn. apply orb_false_r.
  - assert (n <=? i = true) as -> by (apply N.leb_le; assumption).
    rewrite (testbit_high a n i) by assumption. reflexivity.
Qed.

Lemma bits_eq_mod a b n :
  (forall i, i < n -> N.testbit a i = N.testbit b i) -> a mod 2 ^ n = b mod 2 ^ n.
Proof.
  intros H. apply N.bits_inj. intro i. rewrite !mod_pow2_testbit.
  destruct (N.ltb_spec i n); cbn; auto.
Qed.

Lemma mod_pow2_idem a n : a < 2 ^ n -> a mod 2 ^ n = a.
Proof. apply N.mod_small. Qed.

Lemma land_ones_mod a n : N.land a (N.ones n) = a mod 2 ^ n.
Proof. apply N.land_ones. Qed.

Lemma size_lt_pow2 a : a < 2 ^ N.size a.
Proof.
  destruct a as [|p]; [apply pow2_pos|]. apply N.size_gt.
Qed.

Lemma size_le_of_lt a n : a < 2 ^ n -> N.size a <= n.
Proof.
  intros H. destruct a as [|p]; [change (N.size 0) with 0; lia|].
  rewrite N.size_log2 by discriminate.
  apply N.le_succ_l. apply N.log2_lt_pow2; [reflexivity|assumption].
Qed.

Lemma size_pos_testbit a : a <> 0 -> N.testbit a (N.size a - 1) = true.
Proof.
  intros H. rewrite N.size_log2 by assumption.
  replace (N.succ (N.log2 a) - 1) with (N.log2 a) by lia.
  apply N.bit_log2. assumption.
Qed.

(* ---------------------------------------------------------------- div/mod by a variable width *)

Lemma divmod_unique a w q r : 0 < w -> a = w * q + r -> r < w -> a / w = q /\ a mod w = r.
Proof.
  intros Hw Ha Hr. split.
  - symmetry. eapply N.div_unique; eauto.
  - symmetry. eapply N.mod_unique; eauto.
Qed.

Lemma divmod_window w pos i :
  0 < w -> pos mod w + i < w -> (pos + i) / w = pos / w /\ (pos + i) mod w = pos mod w + i.
Proof.
  intros Hw H. apply divmod_unique; [assumption| |assumption].
  rewrite (N.div_mod' pos w) at 1. lia.
Qed.

Lemma div_lt_of_lt_mul a w n : 0 < w -> a < w * n -> a / w < n.
Proof. intros. apply N.div_lt_upper_bound; lia. Qed.

Lemma mod_lt' a w : 0 < w -> a mod w < w.
Proof. intros. apply N.mod_lt. lia. Qed.

Lemma div_mod_eq a w : a = w * (a / w) + a mod w.
Proof. apply N.div_mod'. Qed.

Lemma ceil_div_spec a w : 0 < w -> forall q, (a + w - 1) / w <= q <-> a <= w * q.
Proof.
  intros Hw q. split; intros H.
  - destruct (N.eq_dec a 0) as [->|Ha]; [lia|].
    pose proof (div_mod_eq (a + w - 1) w) as E. pose proof (mod_lt' (a + w - 1) w Hw). nia.
  - destruct (N.le_gt_cases ((a + w - 1) / w) q) as [|Hgt]; [assumption|exfalso].
    assert (w * (q + 1) <= a + w - 1).
    { etransitivity; [|apply (N.mul_div_le (a + w - 1) w); lia]. apply N.mul_le_mono_l. lia. }
    nia.
Qed.

(* ---------------------------------------------------------------- lists *)

Lemma nth_error_Some_lt {A} (l : list A) i x : nth_error l i = Some x -> (i < length l)%nat.
Proof. intros H. apply nth_error_Some. congruence. Qed.

Lemma Forall_nth_default {A} (P : A -> Prop) l d i : Forall P l -> P d -> P (nth i l d).
Proof.
  intros Hl Hd. revert i. induction Hl as [|x l Hx Hl IH]; intros [|i]; cbn; auto.
Qed.

Lemma Forall_repeat {A} (P : A -> Prop) x n : P x -> Forall P (repeat x n).
Proof. intros. induction n; cbn; constructor; auto. Qed.
