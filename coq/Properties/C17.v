(* C17 - Bit iterators behave like a slice iterator over the bits.
   Only statements closed by `exact`, non-vacuity examples and Print Assumptions in this file. *)
From BVA Require Import Base.Prelude Base.Result Model.Core Model.Conv Model.Auto Spec.Spec Spec.Prop.
From BVA Require Import Proofs.Common Proofs.Lift Proofs.Iter Proofs.XObs.

(* Any interleaving of next, next_back, nth, nth_back, size_hint, count, last and rev, with any
   arguments, on the iterator of a canonical vector of any of the three types, in both build
   profiles, answers exactly what the slice iterator over the vector's bits answers
   (`s_iter` is that specification; answer 2 encodes None). *)
Theorem C17_iterator_refines_slice_iterator :
  forall (P : profile) (a : bvx) (cs : list icall),
    Good a ->
    iter_run (x_get P a) false (0, xlen a) cs = Ok (s_iter (abs a) false 0 (xlen a) cs).
Proof. exact x_iter_spec. Qed.
Print Assumptions C17_iterator_refines_slice_iterator.

(* once exhausted the iterator keeps answering None *)
Theorem C17_exhaustion_is_absorbing :
  forall (a : bv) (rv : bool) (s : N) (cs : list icall),
    Forall (fun c => match c with INext | INextBack | INth _ | INthBack _ | ILast => True | _ => False end) cs ->
    s_iter a rv s s cs = map (fun _ => 2) cs.
Proof. exact s_iter_exhausted. Qed.
Print Assumptions C17_exhaustion_is_absorbing.

(* non-vacuity: a concrete canonical vector, and a call sequence with a huge argument *)
Example C17_hypothesis_satisfiable : Good (XF 8 (mkwv [0xA5; 0x01] 9)).
Proof. split; [apply canonb_spec; reflexivity|unfold std_width; cbn; auto]. Qed.
Example C17_instance :
  iter_run (x_get Debug (XF 8 (mkwv [0xA5; 0x01] 9))) false (0, 9) [INext; INth (N.ones 64); INext]
  = Ok [1; 2; 2].
Proof. reflexivity. Qed.
