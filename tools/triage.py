#!/usr/bin/env python3
"""Group the CORR / PROP failures of the last run of a property by operation and show the smallest examples."""
import sys, subprocess, re, os, collections
sys.path.insert(0, os.path.dirname(os.path.dirname(os.path.abspath(__file__))))
import importlib.machinery, importlib.util
loader = importlib.machinery.SourceFileLoader("check", os.path.join(os.path.dirname(os.path.dirname(os.path.abspath(__file__))), "check"))
spec = importlib.util.spec_from_loader("check", loader); chk = importlib.util.module_from_spec(spec); loader.exec_module(chk)
prop = sys.argv[1]; nshow = int(sys.argv[2]) if len(sys.argv) > 2 else 2
groups = collections.defaultdict(list)
for profile in (0, 1):
    trace = os.path.join(chk.WORK, "%s.%d.trace" % (prop, profile))
    lines, total, fails = chk.run_driver(trace)
    for (i, k, t) in fails:
        c = chk.parse_input(lines[i])
        groups[(k, chk.OPNAMES.get(c["op"]), profile)].append((chk.size_of_case(lines[i]), lines[i], t))
for key in sorted(groups):
    g = sorted(groups[key])
    print("==", key, len(g))
    for (_, l, t) in g[:nshow]:
        print("   ", chk.describe(chk.parse_input(l)))
        print("      line:", l[:400])
        print("      ", t[:300])

# failures whose inputs are all canonical (root causes rather than follow-on effects)
print("#### root causes (canonical inputs)")
seen = collections.Counter()
for key in sorted(groups):
    for (_, l, t) in sorted(groups[key]):
        c = chk.parse_input(l)
        ok = True
        for v in c["vals"]:
            raw = sum(w << (v["w"] * i) for i, w in enumerate(v["words"]))
            if raw >> v["len"] != 0 or v["len"] > v["w"] * len(v["words"]):
                ok = False
        if ok:
            seen[key] += 1
            if seen[key] <= nshow:
                print("ROOT", key, chk.describe(c)); print("      line:", l[:300]); print("      ", t[:200])
print(dict(seen))
