#!/usr/bin/env python3
"""Independently confirm seeded changes in a scratch worktree of /repo (outside /repo and /verif):
for each /tmp/mut/out/<P>/m<i>.patch.diff: (1) applies, builds and the whole existing test suite passes,
(2) the demonstration test fails with the change, (3) passes without it.
Copies confirmed ones into /verif/seeded/<P>-m<i>/ with meta.json.  Usage: confirm_seeded.py P/m1 P/m2 ..."""
import json, os, shutil, subprocess, sys
WT = "/tmp/mut/verify"
ENV = dict(os.environ, CARGO_TARGET_DIR=WT + "/target", CARGO_NET_OFFLINE="true")

def sh(cmd, cwd=WT, timeout=3000):
    p = subprocess.run(cmd, shell=True, cwd=cwd, env=ENV, stdout=subprocess.PIPE, stderr=subprocess.STDOUT, text=True, timeout=timeout)
    return p.returncode, p.stdout

def main():
    if not os.path.exists(WT):
        rc, out = sh("git -C /repo worktree add -q --detach %s HEAD" % WT, cwd="/")
        assert rc == 0, out
    else:
        sh("git checkout -q -- . ; git checkout -q --detach %s" % subprocess.run("git -C /repo rev-parse HEAD", shell=True, stdout=subprocess.PIPE, text=True).stdout.strip())
    for item in sys.argv[1:]:
        P, m = item.split("/")
        src = "/tmp/mut/out/%s" % P
        patch = "%s/%s.patch.diff" % (src, m); demo = "%s/%s_demo.rs" % (src, m); metaf = "%s/%s_meta.json" % (src, m)
        meta = json.load(open(metaf)) if os.path.exists(metaf) else {}
        sh("git checkout -q -- . && rm -rf tests")
        rc, out = sh("git apply %s" % patch)
        if rc != 0:
            rc, out = sh("git apply --3way %s && git reset -q" % patch)
        if rc != 0:
            print(item, "PATCH FAILS", out); continue
        rc_suite, out_suite = sh("cargo test --offline --lib 2>&1")
        suite_ok = "test result: ok. 235 passed" in out_suite
        os.makedirs(WT + "/tests", exist_ok=True)
        shutil.copy(demo, WT + "/tests/demo_seeded.rs")
        rc_d1, out_d1 = sh("cargo test --offline --test demo_seeded 2>&1")
        rc_r1, out_r1 = sh("cargo test --offline --release --test demo_seeded 2>&1")
        sh("git checkout -q -- src")
        rc_d0, out_d0 = sh("cargo test --offline --test demo_seeded 2>&1")
        rc_r0, out_r0 = sh("cargo test --offline --release --test demo_seeded 2>&1")
        sh("rm -rf tests")
        fails_with = (rc_d1 != 0) or (rc_r1 != 0)
        passes_without = (rc_d0 == 0) and (rc_r0 == 0)
        ok = suite_ok and fails_with and passes_without
        print("%-8s suite_ok=%s demo_fails_with(debug=%s,release=%s) demo_passes_without=%s => %s" % (
            item, suite_ok, rc_d1 != 0, rc_r1 != 0, passes_without, "CONFIRMED" if ok else "REJECTED"), flush=True)
        if ok:
            d = "/verif/seeded/%s-%s" % (meta.get("property", P), m) if meta.get("property", P) == P else "/verif/seeded/%s-%s-%s" % (meta.get("property"), P, m)
            os.makedirs(d, exist_ok=True)
            shutil.copy(patch, d + "/patch.diff"); shutil.copy(demo, d + "/demo.rs")
            json.dump({"property": meta.get("property", P), "summary": meta.get("summary"), "needs": meta.get("needs"), "witness": meta.get("witness"),
                       "author": "independent sub-agent given only the property text and a scratch worktree of /repo",
                       "confirmed": {"worktree": WT, "existing_suite": "cargo test --offline --lib: 235 passed with the change applied",
                                     "demo_with_change": "fails (debug: %s, release: %s)" % (rc_d1 != 0, rc_r1 != 0),
                                     "demo_without_change": "passes in debug and release"}}, open(d + "/meta.json", "w"), indent=1)

if __name__ == "__main__":
    main()
