#!/usr/bin/env python3
"""Apply each seeded change under /verif/seeded/<id>/patch.diff to /repo, run the checks of the
property it breaks (quick tier), record whether a VIOLATION was reported, and undo the change.
Usage: tools/run_seeded.py [id ...]     (results are appended to seeded/RESULTS.md by hand)"""
import json, os, subprocess, sys

ROOT = os.path.dirname(os.path.dirname(os.path.abspath(__file__)))
SEEDED = os.path.join(ROOT, "seeded")


def sh(cmd, **kw):
    return subprocess.run(cmd, shell=True, stdout=subprocess.PIPE, stderr=subprocess.STDOUT, text=True, **kw)


def main():
    ids = sys.argv[1:] or sorted(d for d in os.listdir(SEEDED) if os.path.isdir(os.path.join(SEEDED, d)))
    assert sh("git -C /repo status --porcelain").stdout.strip() == "", "/repo is not clean"
    for i in ids:
        d = os.path.join(SEEDED, i)
        meta = json.load(open(os.path.join(d, "meta.json")))
        props = meta.get("check_properties") or [meta["property"]]
        r = sh("git -C /repo apply %s" % os.path.join(d, "patch.diff"))
        if r.returncode != 0:
            print(i, "PATCH DOES NOT APPLY", r.stdout)
            continue
        try:
            for p in props:
                out = sh("./check %s quick" % p, cwd=ROOT).stdout
                lines = [l for l in out.splitlines() if l.startswith(("VIOLATION", p + " "))]
                detected = any(l.startswith("VIOLATION") for l in lines)
                nfi = any("no-failing-input-found" in l for l in lines)
                print("%-12s %-4s %s %s" % (i, p, "DETECTED" if detected else "MISSED", "(no-failing-input-found)" if nfi else ""))
                for l in lines[:3]:
                    print("      ", l)
        finally:
            sh("git -C /repo checkout -- .")
    assert sh("git -C /repo status --porcelain").stdout.strip() == ""


if __name__ == "__main__":
    main()
