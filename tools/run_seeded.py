#!/usr/bin/env python3
"""Apply each seeded change under /verif/seeded/<id>/patch.diff to /repo, run the checks of the
property it breaks (quick tier), record whether a VIOLATION was reported, and undo the change.
Usage: tools/run_seeded.py [id ...]     (results are appended to seeded/RESULTS.md by hand)"""
import json, os, subprocess, sys

ROOT = os.path.dirname(os.path.dirname(os.path.abspath(__file__)))
SEEDED = os.path.join(ROOT, "seeded")


def sh(cmd, **kw):
    return subprocess.run(cmd, shell=True, stdout=subprocess.PIPE, stderr=subprocess.STDOUT, text=True, **kw)


def main():
    rows = []
    ids = [a for a in sys.argv[1:] if not a.startswith("--")] or sorted(d for d in os.listdir(SEEDED) if os.path.isdir(os.path.join(SEEDED, d)))
    assert sh("git -C /repo status --porcelain").stdout.strip() == "", "/repo is not clean"
    for i in ids:
        d = os.path.join(SEEDED, i)
        meta = json.load(open(os.path.join(d, "meta.json")))
        props = meta.get("check_properties") or [meta["property"]]
        r = sh("git -C /repo apply %s" % os.path.join(d, "patch.diff"))
        if r.returncode != 0:
            r = sh("git -C /repo apply --3way %s" % os.path.join(d, "patch.diff"))
        if r.returncode != 0:
            print(i, "PATCH DOES NOT APPLY", r.stdout)
            rows.append((i, meta["property"], "patch no longer applies to HEAD", "", meta.get("needs") or ""))
            sh("git -C /repo checkout -- . ; git -C /repo reset -q")
            continue
        try:
            for p in props:
                out = sh("./check %s quick" % p, cwd=ROOT).stdout
                lines = [l for l in out.splitlines() if l.startswith(("VIOLATION", p + " "))]
                detected = any(l.startswith("VIOLATION") for l in lines)
                nfi = any("no-failing-input-found" in l for l in lines)
                print("%-12s %-4s %s %s" % (i, p, "DETECTED" if detected else "MISSED", "(no-failing-input-found)" if nfi else ""))
                for l in lines[:3]:
                    print("      ", l)
                if "--harvest" in sys.argv and detected:
                    # keep the smallest failing inputs as corpus lines (they run first on every later check)
                    import re as _re
                    cpath = os.path.join(ROOT, "corpus", p + ".cases")
                    have = open(cpath).read() if os.path.exists(cpath) else ""
                    added = 0
                    for l in lines:
                        mm = _re.match(r"VIOLATION property=\S+ replay=(\S+)", l)
                        if not mm or added >= 2:
                            continue
                        try:
                            r = json.load(open(os.path.join(ROOT, mm.group(1))))
                        except Exception:
                            continue
                        if r.get("verdict") != "PROP":
                            continue
                        inp = r["line"].split(">")[0].strip()
                        # only inputs within the master theorem's hypotheses (canonical operands ...): a later step of a
                        # history may start from a state the seeded change itself corrupted, which says nothing on a good tree
                        chk = subprocess.run([os.path.join(ROOT, "ocaml", "driver"), "prop"], input=inp + " > 5 1\n",
                                             stdout=subprocess.PIPE, text=True).stdout
                        if "in_scope=1" not in chk:
                            continue
                        if inp not in have and len(inp) < 4000:
                            with open(cpath, "a") as f:
                                f.write("# found with the seeded change %s\n%s\n" % (i, inp))
                            have += inp
                            added += 1
                import re
                m = re.search(r"(\d+) cases, (\d+) corr failures, (\d+) prop failures", out)
                rows.append((i, p, ("DETECTED" + (" (no-failing-input-found)" if nfi else "")) if detected else "MISSED",
                             "%s of %s cases fail PROP, %s fail CORR" % (m.group(3), m.group(1), m.group(2)) if m else "", (meta.get("needs") or "")[:300]))
        finally:
            sh("git -C /repo checkout -- . ; git -C /repo reset -q")
    assert sh("git -C /repo status --porcelain").stdout.strip() == ""
    if "--update" in sys.argv:
        # keep the rows of changes not run this time
        path = os.path.join(SEEDED, "RESULTS.md")
        old = []
        if os.path.exists(path):
            for l in open(path):
                cells = [c.strip() for c in l.strip().strip("|").split("|")]
                if l.startswith("| ") and len(cells) == 5 and cells[0] not in ("seeded change", "---") and not set(cells[0]) <= set("-"):
                    old.append(tuple(cells))
        ran = {r[0] for r in rows}
        rows = sorted([r for r in old if r[0] not in ran] + rows, key=lambda r: (str(r[0]), str(r[1])))
    if "--write" in sys.argv or "--update" in sys.argv:
        with open(os.path.join(SEEDED, "RESULTS.md"), "w") as f:
            f.write("# Seeded changes: which checks catch which\n\nEach change was written by a sub-agent that saw only the property text and a scratch worktree of /repo,\n"
                    "confirmed independently (tools/confirm_seeded.py: existing suite passes with it, demo fails with it, passes without),\n"
                    "then applied to /repo, checked with `./check <property> quick`, and undone (tools/run_seeded.py --write).\n\n"
                    "| seeded change | check | outcome | failing cases in the quick run | needs |\n|---|---|---|---|---|\n")
            for r in rows:
                f.write("| %s | %s | %s | %s | %s |\n" % tuple(str(x).replace("|", "/").replace("\n", " ") for x in r))
        print("wrote seeded/RESULTS.md")


if __name__ == "__main__":
    main()
