(* Driver around the extracted Coq model (model.ml).  Reads trace lines written by the Rust
   harness, runs the model (CORR) and the property relation (PROP) on each, prints one line
   per failing case and a summary.  Hand-written part of the trusted base: this file only
   parses numbers, calls extracted functions and prints.

   Line format:  field | field | ... > field | field ...
   a field is a space separated list of hex numbers (see Model/Run.v for the tags). *)

open Model

let rec pos_of_bits (acc : positive) (s : string) (i : int) (n : int) : positive =
  (* continue reading hex digits s.[i..n-1], acc holds the bits read so far *)
  if i >= n then acc
  else begin
    let c = s.[i] in
    let v =
      if c >= '0' && c <= '9' then Char.code c - 48
      else if c >= 'a' && c <= 'f' then Char.code c - 87
      else if c >= 'A' && c <= 'F' then Char.code c - 55
      else failwith ("bad hex digit in " ^ s) in
    let b k acc = if (v lsr k) land 1 = 1 then XI acc else XO acc in
    pos_of_bits (b 0 (b 1 (b 2 (b 3 acc)))) s (i + 1) n
  end

let n_of_hex (s : string) : n =
  let n = String.length s in
  (* skip leading zeros *)
  let i = ref 0 in
  while !i < n && s.[!i] = '0' do incr i done;
  if !i >= n then N0
  else begin
    let c = s.[!i] in
    let v =
      if c >= '0' && c <= '9' then Char.code c - 48
      else if c >= 'a' && c <= 'f' then Char.code c - 87
      else if c >= 'A' && c <= 'F' then Char.code c - 55
      else failwith ("bad hex digit in " ^ s) in
    (* first digit: start at its top set bit *)
    let acc = ref XH in
    let started = ref false in
    for k = 3 downto 0 do
      let bit = (v lsr k) land 1 = 1 in
      if !started then acc := (if bit then XI !acc else XO !acc)
      else if bit then started := true
    done;
    Npos (pos_of_bits !acc s (!i + 1) n)
  end

let hex_of_n (x : n) : string =
  match x with
  | N0 -> "0"
  | Npos p ->
    (* collect bits LSB first *)
    let bits = ref [] in
    let rec go p = match p with
      | XH -> bits := true :: !bits
      | XO q -> bits := false :: !bits; go q
      | XI q -> bits := true :: !bits; go q in
    go p;
    (* !bits is MSB first now *)
    let l = List.length !bits in
    let pad = (4 - l mod 4) mod 4 in
    let arr = Array.of_list ((List.init pad (fun _ -> false)) @ !bits) in
    let buf = Buffer.create (Array.length arr / 4) in
    let i = ref 0 in
    while !i < Array.length arr do
      let v = (if arr.(!i) then 8 else 0) + (if arr.(!i+1) then 4 else 0)
              + (if arr.(!i+2) then 2 else 0) + (if arr.(!i+3) then 1 else 0) in
      Buffer.add_char buf "0123456789abcdef".[v];
      i := !i + 4
    done;
    Buffer.contents buf

let parse_field (s : string) : n list =
  String.split_on_char ' ' s
  |> List.filter (fun t -> t <> "")
  |> List.map n_of_hex

let parse_side (s : string) : n list list =
  String.split_on_char '|' s |> List.map parse_field |> List.filter (fun f -> f <> [])

let rec n_of_int (i : int) : n =
  if i = 0 then N0 else n_of_hex (Printf.sprintf "%x" i)

let show_vec (x : bvx) : string =
  let (tag, w, v) = match x with
    | XF (w, v) -> (0, hex_of_n w, v)
    | XD v -> (1, "40", v)
    | XA (true, v) -> (2, "40", v)
    | XA (false, v) -> (3, "40", v) in
  Printf.sprintf "1 %x %s %s %s" tag w (hex_of_n v.wl)
    (String.concat " " (List.map hex_of_n v.wd))

let show_item (i : item) : string =
  match i with
  | IV x -> show_vec x
  | IN n -> "2 " ^ hex_of_n n
  | IL l -> "3 " ^ String.concat " " (List.map hex_of_n l)

let show_result (r : result) : string =
  match r with
  | Ok items -> String.concat " | " ("5 0" :: List.map show_item items)
  | Panic -> "5 1"
  | Err ECap -> "5 2"
  | Err (EFmt i) -> "5 3 " ^ hex_of_n i
  | Err EEof -> "5 4"
  | Err EInvalidInput -> "5 5"
  | Err EInvalidData -> "5 6"
  | OutOfFuel -> "5 ff"

let () =
  let total = ref 0 and corr_fail = ref 0 and prop_fail = ref 0 and bad = ref 0 and in_scope = ref 0 in
  let do_prop = Array.length Sys.argv > 1 && Sys.argv.(1) = "prop" in
  let show_all = Array.length Sys.argv > 1 && Sys.argv.(1) = "show" in
  (try
     while true do
       let line = input_line stdin in
       if String.length line > 0 && line.[0] <> '#' then begin
         incr total;
         match String.index_opt line '>' with
         | None -> incr bad; Printf.printf "BAD %d no-separator\n" !total
         | Some k ->
           let inp = parse_side (String.sub line 0 k) in
           let out = parse_side (String.sub line (k + 1) (String.length line - k - 1)) in
           let c = decode_case inp in
           let observed = decode_result out in
           (* outside the length bound A1 the model is not evaluated (see Spec/CaseOk.v, corr_verdict) *)
           let inb = lens_okb c in
           let consulted = model_consulted c in
           let modelled = if consulted then run_case c else OutOfFuel in
           if case_okb c then incr in_scope;
           let corr = if consulted then result_eqb modelled observed else corr_verdict c observed in
           let prop = if do_prop || show_all then prop_verdict c observed else true in
           if show_all then
             Printf.printf "CASE %d corr=%b prop=%b\n  model:    %s\n  expected: %s\n" !total corr prop
               (show_result modelled) (if inb then show_result (spec_show c) else "panic, abort, error, or the requested canonical vector (beyond_ok)")
           else begin
             if not corr then begin
               incr corr_fail;
               Printf.printf "CORR %d model= %s\n" !total (show_result modelled)
             end;
             if not prop then begin
               incr prop_fail;
               if inb then Printf.printf "PROP %d expected= %s\n" !total (show_result (spec_show c))
               else Printf.printf "PROP %d expected= a panic, abort or error, or the requested canonical vector (length argument beyond 2^62: Spec/CaseOk.v beyond_ok)\n" !total
             end
           end
       end
     done
   with End_of_file -> ());
  Printf.printf "SUMMARY total=%d corr_fail=%d prop_fail=%d bad=%d in_scope=%d\n" !total !corr_fail !prop_fail !bad !in_scope
