#!/usr/bin/env python3
"""Writes MANIFEST.json from the per-property table below (kept in one place so the file stays valid)."""
import json, os
ROOT = os.path.dirname(os.path.abspath(__file__))
props = [json.loads(l) for l in open(os.path.join(ROOT, "properties.jsonl"))]
status = json.load(open(os.path.join(ROOT, "claims.json")))
checks = []
for p in props:
    pid = p["id"]
    s = status[pid]
    checks.append({
        "property_id": pid,
        "quick_cmd": "./check %s quick" % pid,
        "thorough_cmd": "./check %s thorough" % pid,
        "evidence_file": "evidence/%s.json" % pid,
        "replay_cmd_template": "./check %s --replay {path}" % pid,
        "engine": "coq-refinement",
        "level_claimed": {"category": s["category"], "text": s["text"], "design_ref": "DESIGN.md par. 7 (%s)" % pid},
        "level_note": s["note"],
        "technique": s["technique"],
    })
m = {
    "version": 1,
    "setup_cmd": "./check setup",
    "hooks": {"guard": "bva_verif", "enable": "RUSTFLAGS=\"--cfg bva_verif\" (set by ./check for every harness build)",
              "baseline_off_cmd": "cd /repo && cargo nextest run --workspace --no-fail-fast --offline || cargo test --workspace --no-fail-fast --offline",
              "source_commits": status["_hooks"], "add_only": True},
    "engines": [{"name": "coq-refinement", "path": "coq/", "serves_properties": [p["id"] for p in props],
                 "kind_free_text": "Coq 8.16 refinement stack (Spec <- Model proved; Model <-> code by differential correspondence through extracted OCaml model and Rust harness)"}],
    "checks": checks,
    "notes": "See DESIGN.md. Each check: proof obligations of coq/Properties/<id>.v (when present), then correspondence + property relation on generated cases in both build profiles.",
    "not_applicable": [],
}
json.dump(m, open(os.path.join(ROOT, "MANIFEST.json"), "w"), indent=1)
print("MANIFEST.json written with", len(checks), "checks")
